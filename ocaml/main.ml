(* rlmodel: runs the extracted Gallina models on case lines read from stdin
   (one case per line: an operation name, then integers) and prints one line of
   integers per case, in the format the Go side (harness/cmd/rlcall) prints. *)
open Rlmodel_core
open Conv

let cmp_zl a b = compare (List.map int_of_z a) (List.map int_of_z b)

let next_value t =
  let kind = next_int t in
  let v = next_zlist t in
  match kind with
  | 0 -> VBool (match v with x :: _ -> int_of_z x <> 0 | [] -> false)
  | 1 -> VInt (List.hd v)
  | 2 -> VStr v
  | _ -> VOther

let out_config (c : config) =
  let bs = List.sort (fun ((k1, s1), _) ((k2, s2), _) ->
      let c = cmp_zl k1 k2 in if c <> 0 then c else cmp_zl s1 s2) c.c_binds in
  out_list (fun ((km, sq), (a, m)) -> out_zlist km; out_zlist sq; out_zlist a; out_bool m) bs;
  let vs = List.sort (fun (n1, _) (n2, _) -> cmp_zl n1 n2) c.c_vars in
  out_list (fun (n, v) -> out_zlist n;
             match v with
             | VBool b -> out_int 0; out_int 1; out_bool b
             | VInt z -> out_int 1; out_int 1; out_z z
             | VStr s -> out_int 2; out_zlist s
             | VOther -> out_int 3; out_int 0) vs

let out_res f = function
  | Ok a -> f a
  | Panic site -> out_str "PANIC"; out_z site
  | OutOfFuel -> out_str "OUTOFFUEL"

let run_case (line : Stdlib.String.t) =
  let t = toks_of_line line in
  let op = next_tok t in
  (match op with
   | "esc" -> let m = next_bool t in let s = next_zlist t in out_zlist (escape m s)
   | "unesc" -> let s = next_zlist t in out_zlist (unescape s)
   | "rt" -> let m = next_bool t in let s = next_zlist t in out_zlist (unescape (escape m s))
   | "cmeta" -> let s = next_zlist t in out_zlist (convert_meta s)
   | "dom" -> let s = next_zlist t in out_bool (List.for_all dom s)
   | "parse" ->
     let halt = next_bool t in let strict = next_bool t in
     let app = next_zlist t in let term = next_zlist t in let mode = next_zlist t in
     let vars = next_list (fun t -> let n = next_zlist t in let v = next_value t in (n, v)) t in
     let files = next_list (fun t -> let n = next_zlist t in let k = next_int t in let c = next_zlist t in
                             (n, (match k with 0 -> FData c | 1 -> FNotExist | _ -> FError))) t in
     let src = next_zlist t in
     let o = { o_halt = halt; o_strict = strict; o_app = app; o_term = term; o_mode = mode } in
     out_res (fun ((cfg, errs), ret) ->
         out_z ret;
         out_list (fun (k, l) -> out_z k; let ki = int_of_z k in
                    if ki = 10 || ki = 11 || ki = 12 then out_int 0 else out_z l) errs;
         out_config cfg)
       (parse files o { c_vars = vars; c_binds = [] } src)
   | "histm" ->
     let dtab = next_list (fun t -> let l = next_zlist t in let ok = next_bool t in let b = next_zlist t in
                            (List.map int_of_z l, if ok then Some b else None)) t in
     let dec l = match List.assoc_opt (List.map int_of_z l) dtab with Some r -> r | None -> None in
     let n = next_int t in
     let st = ref ([], []) in
     for _ = 1 to n do
       match next_int t with
       | 0 -> let e = next_zlist t in let text = next_zlist t in
         st := write (fun _ -> e) !st text
       | 1 -> let es = open_hist dec (snd !st) in
         out_str "R"; out_list out_zlist es; st := (es, snd !st)
       | _ -> let k = next_int t in let e = next_zlist t in let text = next_zlist t in
         let f = crash_write (fun _ -> e) (snd !st) text (nat_of_int k) in
         st := (open_hist dec f, f)
     done;
     out_str "F"; out_zlist (snd !st)
   | "trim" -> let s = next_zlist t in out_zlist (trim_space s)
   | "disp" ->
     let vi = next_bool t in let cm = next_bool t in
     let tbl = next_list (fun t -> let sq = next_zlist t in let a = next_zlist t in let m = next_bool t in (sq, (a, m))) t in
     let reg = next_list next_zlist t in
     let ins = next_list (fun t -> let k = next_int t in let bs = next_zlist t in if k = 0 then Chunk bs else Eof) t in
     let registered a = List.exists (fun r -> cmp_zl r a = 0) reg in
     let o = loop (probe_exec registered) (nat_of_int 20000) cm tbl (init_state vi []) ins in
     let (code, st) = (match o with Waiting s -> (0, s) | Ended s -> (1, s) | NoFuel s -> (2, s) | Returned s -> (3, s)) in
     out_int code;
     out_list (fun (a, ks) -> out_zlist a; out_zlist ks) st.l_app;
     out_zlist st.l_keys.k_buf; out_zlist st.l_keys.k_macro; out_bool st.l_keys.k_must_wait
   | "edsess" ->
     let vi = next_bool t in let mem = next_bool t in let maxe = next_z t in
     let h = next_list next_zlist t in
     let cmds = next_list (fun t -> let n = next_zlist t in let k = next_zlist t in (n, k)) t in
     let st = ref (Ok (ed_init vi h)) in
     List.iter (fun (n, k) ->
         (match !st with
          | Ok e -> st := run_one n k mem maxe e
          | _ -> ());
         (match !st with
          | Ok e ->
            out_str "S"; out_zlist e.line; out_z e.cpos; out_z e.kmain; out_z e.klocal;
            out_z (cur_undo e).u_pos; out_zlist (ring_top e);
            out_bool e.sel.s_active; out_bool e.sel.s_visual; out_bool e.sel.s_vline; out_z e.sel.s_bpos; out_z e.sel.s_epos;
            out_bool e.accepted; out_list out_zlist e.written
          | Panic site -> out_str "PANIC"; out_z site
          | OutOfFuel -> out_str "OUTOFFUEL")) cmds
   | "c08" ->
     let err = next_z t in let inf = next_bool t in let maxe = next_z t in let l = next_zlist t in
     let srcs = next_list (fun t -> let k = next_bool t in let es = next_list next_zlist t in (k, es)) t in
     out_list (fun (k, es) -> out_bool k; out_list out_zlist es) (sources_accept err inf maxe l srcs)
   | "full" ->
     (* the whole model of a Readline call: default table of a keymap + key loop + editor commands *)
     let vi = next_bool t in let cm = next_bool t in let km = next_zlist t in
     let h = next_list next_zlist t in
     let ins = next_list (fun t -> let k = next_int t in let bs = next_zlist t in if k = 0 then Chunk bs else Eof) t in
     let tbl = (match List.find_opt (fun (n, _) -> cmp_zl n km = 0) effective_binds with Some (_, b) -> b | None -> []) in
     let o = loop (ed_exec true (z_of_int (-1))) (nat_of_int 100000) cm tbl (init_state vi (Ok (ed_init vi h))) ins in
     let (code, st) = (match o with Waiting s -> (0, s) | Ended s -> (1, s) | NoFuel s -> (2, s) | Returned s -> (3, s)) in
     out_int code;
     (match st.l_app with
      | Ok e -> out_str "S"; out_zlist e.line; out_z e.cpos; out_z e.accept_err; out_zlist st.l_keys.k_buf
      | Panic site -> out_str "PANIC"; out_z site
      | OutOfFuel -> out_str "OUTOFFUEL")
   | "c15" ->
     let gs = next_list (fun t -> let al = next_bool t in let mx = next_z t in let my = next_z t in let nc = next_z t in
                          let rows = next_zlist t in fresh_group rows al mx my nc) t in
     let dirs = next_zlist t in
     List.iter (fun r -> match r with
         | Ok (Some ((g, y), x)) -> out_str "S"; out_z g; out_z y; out_z x
         | Ok None -> out_str "N"
         | Panic site -> out_str "PANIC"; out_z site
         | OutOfFuel -> out_str "OUTOFFUEL") (run_selects { e_groups = gs; e_cur = z_of_int (-1) } dirs)
   | "macro" ->
     let n = next_int t in
     let st = ref m_init in
     let cur_reg = ref (z_of_int 0) in
     for _ = 1 to n do
       let kind = next_int t in
       let keys = next_zlist t in
       let z = z_of_int in
       (match kind with
        | 0 -> st := mstep !st (MKeys keys)
        | 1 -> cur_reg := z 0; st := mstep !st (MStart (z 0, [z 24; z 40]))
        | 2 -> st := mstep !st (MStop (!cur_reg, [z 24; z 41]))
        | 4 -> (* StartRecord ignores an invalid register: the one being recorded stays current *)
          if valid_macro_id (List.hd keys) then cur_reg := List.hd keys;
          st := mstep !st (MStart (List.hd keys, [z 113]))
        | 5 -> st := mstep !st (MStop (!cur_reg, [z 113]))
        | 6 -> st := mstep !st (MRun (List.hd keys, [z 64]));
          out_str "R"; out_zlist (fed_bytes !st);
          st := { !st with m_fed = [] }
        | _ -> st := mstep !st (MCallLast [z 24; z 101]);
          out_str "R"; out_zlist (fed_bytes !st);
          st := { !st with m_fed = [] })
     done
   | "c14" ->
     (* line, cursor, candidate: the prefix the engine computes and the completed line *)
     let l = next_zlist t in let c = next_z t in let v = next_zlist t in
     out_res (fun p -> out_zlist p) (set_prefix l c);
     out_res (fun (cl, cc) -> out_zlist cl; out_z cc) (complete_with l c v)
   | "term" ->
     (* rows cols nchunks {bytes}* : the terminal model fed chunk after chunk; after each: cursor, flags, the rows *)
     let rows = next_z t in let cols = next_z t in
     let chunks = next_list next_zlist t in
     let tm = ref (term_init rows cols) in
     List.iter (fun ch ->
         tm := term_feed !tm ch;
         out_str "T"; out_z !tm.t_r; out_z !tm.t_c; out_bool !tm.t_pend; out_z !tm.t_style; out_bool !tm.t_visible;
         out_z !tm.t_scrolled; out_z !tm.t_queries;
         out_list (fun r -> out_zlist (row_text r)) !tm.t_grid) chunks
   | "layout" ->
     let rows = next_z t in let cols = next_z t in
     let prompt = next_zlist t in let buf = next_zlist t in let cpos = next_z t in
     let (tm, (cr, cc)) = layout rows cols prompt buf cpos in
     out_z cr; out_z cc; out_z tm.t_scrolled;
     out_list (fun r -> out_zlist (row_text r)) tm.t_grid
   | "coords" ->
     let w = next_z t in let buf = next_zlist t in let cpos = next_z t in let indent = next_z t in
     out_res (fun (x, y) -> out_z x; out_z y) (coordinates_cursor w buf cpos indent);
     (let (x, y) = coordinates_line w buf indent in out_z x; out_z y)
   | "edcmds" -> out_list out_zlist modelled_commands
   | "quote" -> let c = next_z t in out_zlist (quote c)
   | _ -> out_str ("UNKNOWN-OP " ^ op));
  flush_line ()

let () =
  try
    while true do
      let line = input_line stdin in
      if String.length line > 0 then run_case line
    done
  with End_of_file -> ()
