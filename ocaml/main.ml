(* rlmodel: runs the extracted Gallina models on case lines read from stdin
   (one case per line: an operation name, then integers) and prints one line of
   integers per case, in the format the Go side (harness/cmd/rlcall) prints. *)
open Rlmodel_core
open Conv

let run_case (line : string) =
  let t = toks_of_line line in
  let op = next_tok t in
  (match op with
   | "esc" -> let m = next_bool t in let s = next_zlist t in out_zlist (escape m s)
   | "unesc" -> let s = next_zlist t in out_zlist (unescape s)
   | "rt" -> let m = next_bool t in let s = next_zlist t in out_zlist (unescape (escape m s))
   | "cmeta" -> let s = next_zlist t in out_zlist (convert_meta s)
   | "dom" -> let s = next_zlist t in out_bool (List.for_all dom s)
   | "quote" -> let c = next_z t in out_zlist (quote c)
   | _ -> out_str ("UNKNOWN-OP " ^ op));
  flush_line ()

let () =
  try
    while true do
      let line = input_line stdin in
      if String.length line > 0 then run_case line
    done
  with End_of_file -> ()
